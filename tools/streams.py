"""Input generators for the correspondence check and the failing-input search.

Everything random derives from one `random.Random(seed)`.  The generators build their cases
from the live country table / bank registry of the tree under test, but compute check digits
with their own arithmetic (never with the library's), so the accept side is populated
independently.
"""
from __future__ import annotations

import ast
import glob
import os
import random
import re
import string

from realops import REPO, registry

SPEC_ITEM = re.compile(r"(\d+)(!)?([nace])")
UPPER = string.ascii_uppercase
DIGITS = string.digits


def unicode_sets():
    rd, rs = re.compile(r"\d"), re.compile(r"\s")
    digits = [chr(c) for c in range(0x110000) if rd.fullmatch(chr(c))]
    spaces = [chr(c) for c in range(0x110000) if rs.fullmatch(chr(c))]
    to_ascii = [chr(c) for c in range(128, 0x110000)
                if any(x in string.ascii_letters for x in chr(c).upper())]
    return digits, spaces, to_ascii


_U = None


def U():
    global _U
    if _U is None:
        _U = unicode_sets()
    return _U


def near_whitespace() -> list[str]:
    """Invisible / format / control characters that are NOT matched by \\s: a cleaner that removes
    any of them removes too much."""
    import unicodedata
    _, spaces, _ = U()
    sp = set(spaces)
    return [chr(c) for c in range(0x110000)
            if unicodedata.category(chr(c)) in ("Cf", "Cc", "Zs", "Zl", "Zp") and chr(c) not in sp]


def normalisation_sensitive() -> list[str]:
    """Code points whose NFC / NFKC / NFD / NFKD / casefold form contains an ASCII letter or digit,
    whitespace, or is longer than one character: a normalisation step added anywhere in the library turns
    them into something else (a sample of each kind; all of them in the first two planes)."""
    import unicodedata
    seen, out = {}, []
    for c in range(0x80, 0x20000):
        ch = chr(c)
        if 0xD800 <= c <= 0xDFFF:
            continue
        for form in ("NFKC", "NFKD", "NFC"):
            n = unicodedata.normalize(form, ch)
            if n != ch:
                kind = (form, any(x.isascii() and x.isalnum() for x in n), any(x.isspace() for x in n), min(len(n), 3))
                k = seen.get(kind, 0)
                if k < 12:
                    seen[kind] = k + 1
                    out.append(ch)
                break
    return out


def case_related() -> list[str]:
    """Non-ASCII code points that a case mapping (upper, lower, casefold, title, swapcase) turns into
    text containing an ASCII letter or digit (KELVIN SIGN, dotted / dotless i, long s, sharp s, the
    ligatures …): what a case-insensitive match or a case-mapping step confuses with ASCII.  Few enough
    (20 under Unicode 15) to be swept completely."""
    out = []
    for c in range(0x80, 0x110000):
        if 0xD800 <= c <= 0xDFFF:
            continue
        ch = chr(c)
        if any(any(x.isascii() and x.isalnum() for x in f(ch))
               for f in (str.upper, str.lower, str.casefold, str.title, str.swapcase)):
            out.append(ch)
    return out


_CASE_RELATED = None


def CASE_RELATED() -> list[str]:
    global _CASE_RELATED
    if _CASE_RELATED is None:
        _CASE_RELATED = case_related()
    return _CASE_RELATED


def wide_alphabet() -> list[str]:
    digits, spaces, to_ascii = U()
    conf = [chr(c) for c in list(range(0xFF10, 0xFF1A)) + list(range(0xFF21, 0xFF3B)) +
            list(range(0xFF41, 0xFF5B))] + list("АВЕКМНОРСТХаеорсух") + list("ΑΒΕΖΗΙΚΜΝΟΡΤΥΧ") + \
        list("ßſıİĸéÅøǅǰΐﬁﬅﬆ") + ["\ud800", "\udfff", "\U0001d7d8", "\x00", "\x7f", "​", "﻿"]
    return [chr(c) for c in range(32, 127)] + digits + spaces + to_ascii + conf + normalisation_sensitive()


def numeric_value(s: str) -> int:
    """Independent letter expansion: digits stay, A..Z -> 10..35."""
    out = []
    for ch in s:
        if ch in DIGITS:
            out.append(ch)
        else:
            out.append(str(ord(ch) - 55))
    return int("".join(out))


def iban_check_digits(cc: str, bban: str) -> str:
    return "%02d" % (98 - numeric_value(bban + cc + "00") % 97)


class Streams:
    def __init__(self, seed: int):
        self.r = random.Random(seed)
        self.table = registry.get("iban")
        self.countries = sorted(self.table)
        # the harness reads entries through a view with every expected key present; entries of the live
        # registry that lack one are remembered (they are inputs the lookups must still handle)
        self.malformed_entries = []
        self.banks = []
        for e in registry.get("bank"):
            missing = [k for k in ("country_code", "bank_code", "bic", "primary", "name", "short_name") if k not in e]
            if missing:
                self.malformed_entries.append((dict(e), missing))
                e = {"country_code": "", "bank_code": "", "bic": None, "primary": False, "name": "",
                     "short_name": "", **e}
            self.banks.append(dict(e))     # a copy: what the registry said when the check started
        self.wide = wide_alphabet()

    # ---- structure-conforming values
    def spec_items(self, cc):
        spec = self.table[cc]["bban_spec"]
        return [(int(n), k) for n, _, k in SPEC_ITEM.findall(spec)]

    def draw_class(self, k: str, lower_ok: bool = False) -> str:
        if k == "n":
            return self.r.choice(DIGITS)
        if k == "a":
            return self.r.choice(UPPER)
        if k == "c":
            pool = DIGITS + UPPER + (string.ascii_lowercase if lower_ok else "")
            return self.r.choice(pool)
        return " "

    def bban(self, cc: str, lower_ok: bool = False) -> str:
        return "".join(self.draw_class(k, lower_ok) for n, k in self.spec_items(cc) for _ in range(n))

    def bban_with_bank(self, cc: str) -> str:
        """A conforming BBAN whose bank-identifying field comes from the registry (if any)."""
        b = list(self.bban(cc))
        spec = self.table[cc]
        cands = [e for e in self.banks_of(cc) if e["bank_code"]]
        if cands and "positions" in spec:
            e = self.r.choice(cands)
            lookup = spec.get("bic_lookup_components", ["bank_code"])
            pos = 0
            code = e["bank_code"]
            for comp in lookup:
                rng = spec["positions"].get(comp, [0, 0])
                n = rng[1] - rng[0]
                b[rng[0]:rng[1]] = list(code[pos:pos + n].ljust(n, "0"))
                pos += n
        return "".join(b)[: spec["bban_length"]]

    _banks_by_cc = None

    def banks_of(self, cc):
        if self._banks_by_cc is None:
            d = {}
            for e in self.banks:
                d.setdefault(e["country_code"], []).append(e)
            self._banks_by_cc = d
        return self._banks_by_cc.get(cc, [])

    def iban(self, cc: str | None = None, with_bank: bool = False) -> str:
        cc = cc or self.r.choice(self.countries)
        b = self.bban_with_bank(cc) if with_bank else self.bban(cc)
        return cc + iban_check_digits(cc, b.upper()) + b

    def iban_with_dd(self, cc: str, dd: str) -> str | None:
        """A valid IBAN of `cc` whose check digits are exactly `dd` (found by varying the last two
        numeric positions of a random conforming BBAN); None if the search fails."""
        cls = [k for n, k in self.spec_items(cc) for _ in range(n)]
        nums = [i for i, k in enumerate(cls) if k == "n"][-2:]
        if len(nums) < 2:
            return None
        for _ in range(4):
            b = list(self.bban(cc).upper())
            for v in range(100):
                b[nums[0]], b[nums[1]] = "%02d" % v
                s = "".join(b)
                if iban_check_digits(cc, s) == dd:
                    return cc + dd + s
        return None

    # ---- one BBAN text under several countries
    def classes(self, cc):
        return [k for n, k in self.spec_items(cc) for _ in range(n)]

    def lookup_key(self, cc: str, bban: str) -> str:
        spec = self.table[cc]
        out = ""
        for comp in spec.get("bic_lookup_components", ["bank_code"]):
            s_, e_ = spec.get("positions", {}).get(comp, [0, 0])
            out += bban[s_:e_] if s_ < len(bban) and e_ <= len(bban) else ""
        return out

    def shared_bbans(self, per_pair: int = 1):
        """(A, B, text): for every pair of different countries whose structures admit a common BBAN
        text (same length, compatible class at every position), `per_pair` such texts; where the
        registry lists banks for A or B, the bank-identifying field of some texts is a listed code.
        State keyed by the BBAN text alone (and not by the country) shows up on exactly these."""
        def inter(a, b):
            if a == b:
                return a
            if "c" in (a, b):
                o = b if a == "c" else a
                return o if o in "na" else None
            return None
        out = []
        cs = {cc: self.classes(cc) for cc in self.countries}
        for A in self.countries:
            for B in self.countries:
                if A >= B or len(cs[A]) != len(cs[B]):
                    continue
                cl = [inter(x, y) for x, y in zip(cs[A], cs[B])]
                if not all(cl):
                    continue
                for j in range(per_pair):
                    b = [self.draw_class(k) for k in cl]
                    src = (A, B)[j % 2] if self.r.random() < 0.7 else None
                    if src:
                        spec = self.table[src]
                        cands = [e for e in self.banks_of(src) if e["bank_code"]]
                        if cands and "positions" in spec:
                            code, pos = self.r.choice(cands)["bank_code"], 0
                            for comp in spec.get("bic_lookup_components", ["bank_code"]):
                                s_, e_ = spec["positions"].get(comp, [0, 0])
                                seg = code[pos:pos + e_ - s_].ljust(e_ - s_, "0")
                                if all(ch in (DIGITS if k == "n" else UPPER if k == "a" else DIGITS + UPPER)
                                       for ch, k in zip(seg, cl[s_:e_])):
                                    b[s_:e_] = list(seg)
                                pos += e_ - s_
                    out.append((A, B, "".join(b)[: len(cl)]))
        return out

    def entries_for(self, pairs):
        """The registry entries that the lookups of (country, BBAN) pairs can touch."""
        keys = {(cc, self.lookup_key(cc, b)) for cc, b in pairs}
        return [e for e in self.banks if (e["country_code"], e["bank_code"]) in keys]

    # ---- words of the source as content
    _tokens = None

    def source_tokens(self):
        """Upper-case alphanumeric runs (2..10 characters) of every string literal of schwifty/**/*.py: if
        the code treats some word specially, the word is written somewhere in the code."""
        if Streams._tokens is None:
            toks = set()
            for path in glob.glob(os.path.join(REPO, "schwifty", "**", "*.py"), recursive=True):
                try:
                    tree = ast.parse(open(path, encoding="utf-8").read())
                except SyntaxError:
                    continue
                for node in ast.walk(tree):
                    if isinstance(node, ast.Constant) and isinstance(node.value, str) and len(node.value) <= 200:
                        for m in re.findall(r"[A-Za-z0-9]{2,10}", node.value):
                            toks.add(m.upper())
            Streams._tokens = sorted(toks)
        return Streams._tokens

    def bbans_with_tokens(self, per_token: int = 2, max_tokens: int = 400):
        """(country, BBAN) pairs whose BBAN carries a word of the source at the start (and at another
        admissible offset) of a structure-conforming BBAN."""
        toks = self.source_tokens()
        if len(toks) > max_tokens:
            toks = self.r.sample(toks, max_tokens)
        cls = {cc: self.classes(cc) for cc in self.countries}

        def fits(tok, cl, off):
            return off + len(tok) <= len(cl) and all(
                (ch in DIGITS and k in "nc") or (ch in UPPER and k in "ac") for ch, k in zip(tok, cl[off:]))
        out = []
        for tok in toks:
            homes = [(cc, off) for cc in self.countries for off in range(0, len(cls[cc]) - len(tok) + 1)
                     if fits(tok, cls[cc], off)]
            at0 = [h for h in homes if h[1] == 0]
            picks = (self.r.sample(at0, min(per_token, len(at0))) if at0 else []) + \
                (self.r.sample(homes, min(per_token, len(homes))) if homes else [])
            for cc, off in picks:
                b = list(self.bban(cc).upper())
                b[off:off + len(tok)] = list(tok)
                out.append((cc, "".join(b)))
        return out

    # ---- mutations
    def mutate(self, s: str) -> str:
        r = self.r
        if not s:
            return r.choice(self.wide)
        k = r.random()
        i = r.randrange(len(s))
        if k < 0.45:
            return s[:i] + r.choice(self.wide) + s[i + 1:]
        if k < 0.55:
            return s[:i] + r.choice(DIGITS + UPPER) + s[i + 1:]
        if k < 0.65:
            return s[:i] + s[i + 1:]
        if k < 0.75:
            return s[:i] + r.choice(self.wide) + s[i:]
        if k < 0.85 and len(s) > 1:
            j = min(i, len(s) - 2)
            return s[:j] + s[j + 1] + s[j] + s[j + 2:]
        if k < 0.92:
            return s[: max(0, len(s) - r.randint(1, 3))]
        return s + "".join(r.choice(DIGITS + UPPER) for _ in range(r.randint(1, 3)))

    def decorate(self, s: str) -> str:
        """Whitespace insertions (all \\s code points) and ASCII case flips."""
        _, spaces, _ = U()
        out = []
        for ch in s:
            while self.r.random() < 0.15:
                out.append(self.r.choice(spaces))
            if ch.isascii() and ch.isalpha() and self.r.random() < 0.4:
                ch = ch.swapcase()
            out.append(ch)
        while self.r.random() < 0.3:
            out.append(self.r.choice(spaces))
        return "".join(out)

    def malformed(self) -> str:
        r = self.r
        k = r.random()
        if k < 0.1:
            return ""
        if k < 0.2:
            return "".join(r.choice(U()[1]) for _ in range(r.randint(1, 5)))
        if k < 0.3:
            return "DE" + "".join(r.choice(DIGITS) for _ in range(r.choice([5000, 4400, 4297, 4298, 100])))
        if k < 0.6:
            return "".join(r.choice(self.wide) for _ in range(r.randint(1, 40)))
        if k < 0.8:
            return r.choice(self.countries) + "".join(r.choice(DIGITS + UPPER) for _ in range(r.randint(0, 36)))
        return "".join(r.choice(UPPER) for _ in range(2)) + "".join(
            r.choice(DIGITS + UPPER) for _ in range(r.randint(0, 34)))


def source_literals() -> tuple[list[int], list[str]]:
    """Every int / str literal of schwifty/**/*.py (for boundary inputs)."""
    ints, strs = set(), set()
    for path in glob.glob(os.path.join(REPO, "schwifty", "**", "*.py"), recursive=True):
        try:
            tree = ast.parse(open(path, encoding="utf-8").read())
        except SyntaxError:
            continue
        for node in ast.walk(tree):
            if isinstance(node, ast.Constant):
                if isinstance(node.value, bool):
                    continue
                if isinstance(node.value, int):
                    ints.add(node.value)
                elif isinstance(node.value, str) and 0 < len(node.value) <= 12:
                    strs.add(node.value)
    return sorted(ints), sorted(strs)
