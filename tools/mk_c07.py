#!/usr/bin/env python3
"""Writes lean/SV/Props/C07Plain.lean: one theorem per 'plain' Bundesbank method.
The table below is the published rule (weights in pairing order, digits in pairing order, position
of the check digit) — it is NOT read from the code; the code's parameters come from SV.Gen."""
import os

R2L = lambda a, b: list(range(b, a - 1, -1))   # digits a..b paired right-to-left
cyc = lambda ws, n: [ws[i % len(ws)] for i in range(n)]
PLAIN = [
    # method, rule, sum, weights (pairing order), digits (pairing order), check digit position
    ("00", "rule10", "dotQ", cyc([2, 1], 9), R2L(1, 9), 10),
    ("01", "rule10", "dot", cyc([3, 7, 1], 9), R2L(1, 9), 10),
    ("02", "rule02", "dot", [2, 3, 4, 5, 6, 7, 8, 9, 2], R2L(1, 9), 10),
    ("03", "rule10", "dot", cyc([2, 1], 9), R2L(1, 9), 10),
    ("04", "rule02", "dot", [2, 3, 4, 5, 6, 7, 2, 3, 4], R2L(1, 9), 10),
    ("05", "rule10", "dot", cyc([7, 3, 1], 9), R2L(1, 9), 10),
    ("06", "rule06", "dot", [2, 3, 4, 5, 6, 7, 2, 3, 4], R2L(1, 9), 10),
    ("07", "rule02", "dot", [2, 3, 4, 5, 6, 7, 8, 9, 10], R2L(1, 9), 10),
    ("10", "rule06", "dot", [2, 3, 4, 5, 6, 7, 8, 9, 10], R2L(1, 9), 10),
    ("11", "rule11", "dot", [2, 3, 4, 5, 6, 7, 8, 9, 10], R2L(1, 9), 10),
    ("13", "rule10", "dotQ", cyc([2, 1], 6), R2L(2, 7), 8),
    ("14", "rule02", "dot", [2, 3, 4, 5, 6, 7], R2L(4, 9), 10),
    ("15", "rule06", "dot", [2, 3, 4, 5], R2L(6, 9), 10),
    ("18", "rule10", "dot", cyc([3, 9, 7, 1], 9), R2L(1, 9), 10),
    ("19", "rule06", "dot", [2, 3, 4, 5, 6, 7, 8, 9, 1], R2L(1, 9), 10),
    ("20", "rule06", "dot", [2, 3, 4, 5, 6, 7, 8, 9, 3], R2L(1, 9), 10),
    ("22", "rule10", "dotM10", cyc([3, 1], 9), R2L(1, 9), 10),
    ("28", "rule06", "dot", [2, 3, 4, 5, 6, 7, 8], R2L(1, 7), 8),
    ("32", "rule06", "dot", [2, 3, 4, 5, 6, 7], R2L(4, 9), 10),
    ("33", "rule06", "dot", [2, 3, 4, 5, 6], R2L(5, 9), 10),
    ("34", "rule06", "dot", [2, 4, 8, 5, 10, 9, 7], R2L(1, 7), 8),
    ("38", "rule06", "dot", [2, 4, 8, 5, 10, 9], R2L(4, 9), 10),
    ("60", "rule10", "dotQ", cyc([2, 1], 7), R2L(3, 9), 10),
]


def term(fn, d, w):
    prod = f"d{d}" if w == 1 else f"d{d} * {w}"     # simp normal form: `d * 1` is `d`
    if fn == "dot":
        return prod
    if fn == "dotQ":
        return f"digitSum ({prod})" if w != 1 else f"digitSum d{d}"
    return f"{prod} % 10"


def nested(fn, ds, ws):
    parts = [term(fn, d, w) for d, w in zip(ds, ws)]
    s = parts[-1]
    for p in reversed(parts[:-1]):
        s = f"{p} + ({s})"
    return s


HEAD = '''/-
  GENERATED ONCE by tools/mk_c07.py from the table of published rules in that script (committed;
  not regenerated at run time).  One theorem per "plain" Bundesbank method: for all ten digits,
  every Unicode table with `WF` and every incoming scratch state, the engine instantiated with the
  class parameters regenerated from the live tree (`SV.Gen.de_DE_xx`) returns a verdict (never a
  foreign exception) and accepts exactly when the published rule does.
-/
import SV.Proofs.GermanyTactics
namespace SV.Props.C07
open SV Spec

'''

THM = '''set_option maxHeartbeats 2000000 in
theorem de{m} (U : Unicode) (hU : U.WF) (d1 d2 d3 d4 d5 d6 d7 d8 d9 d10 : Nat)
    (h1 : d1 < 10) (h2 : d2 < 10) (h3 : d3 < 10) (h4 : d4 < 10) (h5 : d5 < 10) (h6 : d6 < 10)
    (h7 : d7 < 10) (h8 : d8 < 10) (h9 : d9 < 10) (h10 : d10 < 10) (sc : Scratch) :
    deVerdict (Gen.de_DE_{m}.validateM U [acct d1 d2 d3 d4 d5 d6 d7 d8 d9 d10] sc).2 = true ∧
    deAccepts (Gen.de_DE_{m}.validateM U [acct d1 d2 d3 d4 d5 d6 d7 d8 d9 d10] sc).2 =
      {rule} ({fn} {ws} {ds}) d{pz} := by
  have hw : cycleWeights Gen.de_DE_{m}.weights {n} = {ws} := by decide
  de_simp [Gen.de_DE_{m}, intChar_ascii hU, h1, h2, h3, h4, h5, h6, h7, h8, h9, h10] at hw ⊢
  de_simp [Gen.de_DE_{m}, hw, intChar_ascii hU, h1, h2, h3, h4, h5, h6, h7, h8, h9, h10]
  clear hw
  generalize {sum} = S
  de_close {mod} {rule} S d{pz} h{pz}

'''


def main():
    out = HEAD
    for m, rule, fn, ws, ds, pz in PLAIN:
        out += THM.format(m=m, rule=rule, fn=fn, ws=str(ws), ds="[" + ", ".join(f"d{d}" for d in ds) + "]",
                          pz=pz, n=len(ds), sum=nested(fn, ds, ws), mod=10 if rule == 'rule10' else 11)
    out += "end SV.Props.C07\n"
    path = os.path.join(os.path.dirname(os.path.dirname(os.path.abspath(__file__))), "lean", "SV", "Props",
                        "C07Plain.lean")
    open(path, "w").write(out)


main()
