#!/usr/bin/env python3
"""Writes MANIFEST.json from the table below (claimed properties) + properties.jsonl."""
import json
import os

ROOT = os.path.dirname(os.path.dirname(os.path.abspath(__file__)))
NOTE = ("Trusted: Lean 4.33 kernel; axioms propext / Classical.choice / Quot.sound only (audited per run); "
        "tools/gen.py (tables regenerated from the live tree); the correspondence check that ties the "
        "hand-written model to the implementation is differential testing; SV.Spec as the reading of the "
        "standards. CPython's re/str/int semantics are modelled, not verified.")

CLAIMS = {
    "C03": dict(
        text="Lean 4 theorems for every country table and every accepted compact IBAN of any length: a same-kind "
             "substitution anywhere in the BBAN or in either check digit, and an adjacent same-kind transposition "
             "inside the BBAN, of the check digits, of the two country letters, and across the check-digit/BBAN "
             "boundary (for texts of at most 34 characters, which table_wf guarantees) is NOT accepted. Proof: "
             "positional expansion of the letter-expanded number, 10 is a unit mod 97, every single-character delta "
             "(times 1, 9 or 99) is non-zero mod 97, and 10^K is not 1 mod 97 for 0 < K < 96 (kernel-decided). Lifted "
             "to the validating constructor through the C01 equivalence. Tied to the code by the C01 correspondence "
             "and a mutation stream over all countries (letter-rich IBANs included).",
        design="7 (C03)",
        technique="Lean 4 proof (number theory mod 97 by induction and omega; decide +kernel for the order of 10) + "
                  "differential correspondence on systematic single-error mutants"),
    "C13": dict(
        text="PARTIAL. BBAN.random / IBAN.random are modelled in Lean as pure functions of the arguments and an explicit "
             "choice record (bank index chosen, raw rstr.xeger strings per attempt). Theorems for EVERY choice record, "
             "country, registry and pinned set: a returned IBAN is valid (the validating constructor accepts and "
             "returns it unchanged - never an invalid object); the only library errors of BBAN generation are the "
             "overflow error and InvalidCountryCode (errors of individual attempts never escape the retry loop); the "
             "result is a function of arguments and choice record only (no hash seed, no history). Tie: the real "
             "call is run with a recording generator and the model is evaluated on the recorded choices for every "
             "country x seeds x modes x pinned subsets. Also proved (C13Pinned), for every registry, mode and choice "
             "record: `random_placement` / `pinned_readback` - if the pinned values are compact texts no longer than "
             "their fields, every pinned component (a pinned branch code being non-empty) sits zero-padded at its "
             "published position of the returned IBAN; `listed_bank` / `listed_bank_found` - if the draw used a "
             "registry bank whose bank code has the width of the bank-identifying field (bank code, or bank + branch "
             "code) and bank/branch are not pinned, the key read off the returned IBAN is that bank code and the "
             "IBAN's bank lookup finds a listed entry with it. Not provable here: determinism of random.Random / "
             "rstr and that xeger honours the pattern; cross-process / hash-seed reproducibility is a dynamic "
             "check.",
        design="7 (C13)",
        technique="Lean 4 proof over an explicit choice-record model + recorded-choice differential "
                  "correspondence + cross-process reproducibility runs"),
    "C14": dict(
        text="PARTIAL. Lean 4 theorems: non-interference for ANY number of threads and ANY schedule (induction over the "
             "schedule, no bound) in the model where each thread steps its own state and only reads the shared "
             "environment - every thread ends where it ends when run alone; and a proof that one scratch cell shared by "
             "the threads (the pinned design) violates the property (three-step schedule). Tie to the code: an effect "
             "probe regenerated on every run (attribute written on every algorithm singleton by one thread and read "
             "by another; fingerprints of registry._registry and the singletons around a battery of calls run in "
             "another thread) discharges the kernel-checked obligations `sharedScratch = []` and "
             "`sharedWritesAfterImport = []`, and `moduleStateWrites = []` (no module/class-level container, functools "
             "cache, mutable default argument, closure cell or function attribute of the schwifty modules changes "
             "across the battery). Search/replay on the REAL code: tools/sched.py runs two library calls in "
             "two threads under a deterministic line-level scheduler and enumerates single-preemption schedules in "
             "forked children. Not modelled: preemption finer than a source line, the free-threaded build, "
             "third-party modules, the import lock.",
        design="7 (C14)",
        technique="Lean 4 proof (non-interference by induction over schedules) + regenerated effect summary "
                  "obligations + deterministic line-level schedule enumeration on the real code"),
    "C15": dict(
        text="PARTIAL. Lean 4 theorems: generic history independence (if a call's outcome does not depend on the "
             "hidden state, then after ANY finite history - by induction - every call yields its first-call outcome), "
             "instantiated for the only state the library keeps between calls, the German algorithms' scratch cell, "
             "from the C07 per-method theorems (outcome independent of the incoming scratch for all ten digits; "
             "history theorem spelled out for method 25); registries are an immutable parameter of the model and the "
             "effect-probe obligations `sharedWritesAfterImport = []`, `moduleStateWrites = []` (containers, functools "
             "caches, mutable defaults, closures of the schwifty modules) and `threadScratchAttrs` within the modelled "
             "scratch are kernel-checked on regenerated data. Dynamic: "
             "random call histories (incl. failing and malformed calls, seeded random generation, lookup sequences) "
             "run in fresh forked children, each outcome compared with the same call as the FIRST call of another "
             "fresh child, registries fingerprinted, earlier objects re-read. Not provable here: absence of hidden "
             "state in CPython / third-party modules.",
        design="7 (C15)",
        technique="Lean 4 proof (induction over call histories; scratch-independence from C07) + regenerated "
                  "effect obligations + fork-based first-call differential on random histories"),
    "C16": dict(
        text="Lean 4 theorems: == is an equivalence and is equality of the compact strings (also against plain "
             "str), equal objects have equal hash keys, < is the irreflexive, transitive, total lexicographic order "
             "by code point, <= is < or ==, incomparable objects are equal (so sorted() and dict lookups are "
             "consistent); copy / deepcopy / pickle of ANY object (valid or built with validation off) yield an "
             "equal object of the same class and country under the reconstruction protocol "
             "cls.__new__(cls, *getnewargs) + restored dict, given class facts (arity of __new__ = length of "
             "__getnewargs__, no protocol overrides, non-validating __deepcopy__) that are read off the live "
             "classes and kernel-checked; the pinned BBAN arity defect is a theorem about the model. PARTIAL: that "
             "CPython's copyreg/pickle implement that protocol, and that the operators are those of the model, is "
             "validated by correspondence (all operators on mixed pairs, protocols 0-5, cross-process unpickling).",
        design="7 (C16)",
        technique="Lean 4 proof (order/equivalence laws on code-point lists; protocol model) + regenerated class "
                  "facts + differential correspondence incl. cross-process pickles"),
    "C08": dict(
        text="Lean 4 theorems for every well-formed country entry and ALL component strings (any length, any code "
             "points): zfill keeps every supplied character (length max(len,width), zeros then the value, sign rule); "
             "placement - after the eight components are written in Component order into a BBAN of the country's "
             "length, every published component is found unchanged at its published position and the length is "
             "preserved (induction over the component list using disjointness/bounds from table_wf); precise error "
             "class for an over-long bank / branch / account code in that order; InvalidCountryCode / root error for "
             "an unknown country / one without positions. End to end (C08EndToEnd), for every country string and ALL "
             "three component strings: `generate_total` - IBAN.generate returns an IBAN or raises a library error, "
             "never a foreign exception (every national compute can only raise ValueError/KeyError/IndexError, which "
             "compute_national_checksum translates); `generate_ok` - a returned IBAN is country code ++ two digits ++ "
             "BBAN of the country's length, is accepted by the validating constructor, and bank, branch and account "
             "code - cleaned and zero-padded, or the combined-width bank code cut in two (`split_bank_branch`: the two "
             "fields spell the cleaned bank code) - sit at the published positions of that BBAN (the assembled string "
             "is proved compact, the last overlay is the check-digit field whose width is forced by the accepted "
             "length). Both discharged on the live tables for every registry (`live_generate_*`).",
        design="7 (C08)",
        technique="Lean 4 proof (list slicing / overlay induction, compactness, anatomy of from_components) on "
                  "regenerated position and algorithm tables + differential correspondence with read-back and "
                  "error-class checks"),
    "C09": dict(
        text="Lean 4 theorem: for every national algorithm whose validate is the inherited compute == expected (all "
             "but CZ/SK and IS, i.e. exactly the 19 computing countries - instance fact kernel-checked on the "
             "regenerated registration table) any successfully computed check digits validate for ALL component "
             "strings; with the C08 placement theorem the fields read and the check-digit field are found unchanged "
             "in the assembled BBAN. End to end (C09EndToEnd): `build_validates` - every BBAN of the country's length "
             "that from_components returns for a computing country passes validate_national_checksum (the fields the "
             "algorithm reads, cut from the assembled BBAN, are proved to be the components it was given, the check "
             "field is proved to hold what was computed); `generate_passes_national` - every IBAN IBAN.generate "
             "returns for such a country is returned unchanged by IBAN(text, validate_bban=True); for every registry "
             "naming no method for the country and ALL component strings; `computingOk` discharged by kernel "
             "evaluation for the 19 countries of the live tables; `rebuild` - for every country with published "
             "positions and every compact BBAN of the country's length that passes the national check, "
             "from_components of the components read off it returns a BBAN of the same length that agrees at every "
             "position covered by a component (live instance `live_rebuild`). PARTIAL: seeded random draws (they "
             "funnel through from_components, tied by the recorded-choice correspondence of C13) are exercised "
             "dynamically, not proved.",
        design="7 (C09)",
        technique="Lean 4 proof (per-algorithm case analysis) + regenerated registration obligations + "
                  "differential correspondence (generate/validate, rebuild)"),
    "C17": dict(
        text="Kernel-checked obligations (decide +kernel, no axioms beyond the standard three) on the country table "
             "and on ALL bank entries regenerated from the live tree on every run: structure strings parse and "
             "describe exactly bban_length, iban_length = bban_length + 4 <= 34, positions non-empty / in bounds / "
             "pairwise disjoint, bank-identifying fields published, national algorithms' fields and check-digit "
             "fields published; every bank entry (29,451 on the pinned tree, in chunks over 16 modules): country in "
             "the table, BIC null/empty or ISO 9362-valid with a pycountry country code, bank code empty or fitting "
             "the bank-identifying field in length and character classes; plus generic lemmas giving these checks "
             "their meaning (incl. RegistryBicsOk of C12). The consequence (C17Reach): `reachable` - for a well-formed "
             "country every key that fits the classes of the bank-identifying field occurs in a structure-conforming "
             "BBAN from which it is read back (constructed by overlaying the key's pieces on a class-wise filler); "
             "`bank_reachable` - hence for every registry entry with such a bank code there is a valid IBAN whose "
             "`bank` lookup returns the first entry listed for that (country, bank code); `live_rows_reachable` - "
             "the hypothesis holds for every row of the regenerated bank table. The dynamic part still builds and "
             "reads back an IBAN for every distinct key (thorough) / a sample (quick) on the real code.",
        design="7 (C17)",
        technique="decide +kernel instance obligations over the complete regenerated tables (bit-mask encoded "
                  "sets, chunked) + Lean lemmas interpreting them + exhaustive dynamic audit/reachability"),
    "C12": dict(
        text="Lean 4 theorems for EVERY registry (any list of bank entries) and BIC context: an unlisted (country, "
             "bank code) pair raises InvalidBankCode from both lookups; for a listed pair the candidates are exactly "
             "the non-empty BICs of the listed entries, primary entries first, each group in file order; the chosen "
             "BIC is a candidate and follows the stated rule (greatest 8-character one if any, else greatest with "
             "branch XXX, else the first - incl. proof that the `len > 1` guard is immaterial); every candidate "
             "lists the bank code among its domestic bank codes and exists; iban.bank / iban.bic are the lookups on "
             "the key formed from the bank-identifying fields (None when unlisted). Hypothesis `RegistryBicsOk` "
             "(registry BICs valid and compact) is an obligation on the bundled data (C17). Tied to the code by "
             "correspondence on bundled keys/BICs and on synthetic registries installed through the library's own "
             "index builder, plus lookup-sequence (bank -> bic -> bank) streams.",
        design="7 (C12)",
        technique="Lean 4 proof (list/filter/max lemmas over arbitrary registries) + differential correspondence "
                  "incl. synthetic registries and lookup sequences"),
    "C18": dict(
        text="Lean 4 theorems over ALL JSON documents (a nested inductive type; trees of any shape/depth): one-level "
             "merge law, recursion exactly for dict/dict pairs, keys of the merge, an overlay leaves every path it "
             "does not name untouched and puts every non-dict value it names at its path (both by induction on the "
             "path), registry.get is the LEFT fold over the name-sorted files (with a kernel-checked witness that "
             "the merge is not associative), v2 expansion laws. Instance obligation by kernel evaluation: the Lean "
             "composition of the iban_registry files on disk equals the effective table of the live library; entry "
             "counts of the bank files add up; `live_typed_table_is_effective_document`: the typed country table on "
             "which the obligations of all other properties are checked is, key by key as the code reads it "
             "(`typed_entry_reads_document`, `typed_lookup_reads_document`), that effective document - so validation "
             "and generation theorems are about the composition of the files on disk. For bank files: `byBankCode_append`, "
             "`byBankCode_append_unlisted`, `first_entry_from_earlier_file` (an additional file's entries come after "
             "the earlier files' entries of the same pair; pairs it does not list are looked up as before). The live "
             "package's lookups are compared with the bank files read independently. Tied to the code by correspondence of merge_dicts, parse_v2 and "
             "registry.get (temporary directories, adversarial file names).",
        design="7 (C18)",
        technique="Lean 4 proof (mutual structural recursion/induction over JSON trees) + decide +kernel on the "
                  "regenerated registry files + differential correspondence"),
    "C07": dict(
        text="Lean 4 theorems, one per Bundesbank method, for ALL ten digits (10^10 account numbers, symbolic) and "
             "every incoming scratch state: the engine model instantiated with the class parameters and MRO hook "
             "chains regenerated from the live tree returns a verdict (never a foreign exception) and accepts "
             "exactly when the published rule of SV.Spec.Germany does - proved for all 39 methods (plain "
             "weighted-modulus methods by symbolic evaluation reduced to a kernel-decided statement over "
             "(sum mod m, check digit); 08, 09, 16, 17, 21, 23, 24, 25, 26, 61, 63, 68, 76, 88, 91, 99 with "
             "their case splits), and live_de_total: no live method ever raises a foreign exception on a "
             "ten-digit account. Dispatch theorem (first registry entry names the method; unlisted bank / unimplemented "
             "method accepted), instance facts (39 registered methods, account field = bban[8:18], no DE:default; "
             "`live_de_methods_agree`: all entries listed for one German bank code name the same method, so by "
             "`first_entry_names_the_method` the first entry's method is THE method of the bank) "
             "kernel-checked on regenerated data. At the IBAN level (`german_iban_level`, `live_german_iban`, worked "
             "out for method 00 in `live_german_iban_00`): a German text valid without national validation whose "
             "bank's first registry entry names a registered method is accepted with national validation exactly "
             "when the engine with that method's parameters accepts the ten account digits at positions 12..21; "
             "composed with each method theorem in C07IbanAll (`live_german_iban_xx'` for all 39 methods: accepted "
             "exactly when the published rule of method xx holds for those digits). "
             "Constants inside hook bodies (which the class parameters do not show) "
             "are tied by `live_probes_reproduced`: ~10,500 recorded compute/validate calls per run (unit vectors, "
             "every check digit of seeded random numbers, numbers around every integer literal of germany.py) "
             "replayed by the kernel - correspondence, not a theorem. All methods are additionally compared with an independent Python "
             "reference of the published rules and with the model (the published rules in SV.Spec.Germany are a "
             "transcription and are part of the trusted base).",
        design="7 (C07)",
        technique="Lean 4 proof (symbolic simp evaluation of the engine + decide +kernel over residues) on "
                  "regenerated class parameters + differential check against an independent reference + "
                  "correspondence incl. dispatch through the IBAN API"),
    "C06": dict(
        text="Lean 4 theorems for every table / registry / algorithm table: the BBAN-level national check never "
             "returns False (`returns_true`), national validation can only reject (`monotone`), countries without a "
             "registered algorithm are accepted (`no_algorithm_accepts`), and the dispatch theorem (the registered "
             "algorithm judges exactly the declared fields cut at the published positions). Published-rule "
             "equivalence is PROVED for the ISO 7064 families (BA, ME, MK, PT, RS, SI, TL; MR, TN; BE) against "
             "SV.Spec.National through kernel-checked instance obligations on the regenerated registration table and "
             "positions (so BT-vs-BA, a shifted position or a lost country breaks an obligation), and for ES, FR, MC, "
             "IT, SM, FI, NO, PL, EE, CZ, SK, IS (C06Rules): for EVERY structure-conforming BBAN the national check "
             "returns exactly `if <published rule> then True else raise InvalidBBANChecksum` (Norway: InvalidAccountCode "
             "when no check digit exists), the rule stated over BBAN string positions with the weights / RIB letter "
             "table / CIN tables written out, incl. the theorem that the code's 89/15/3 formula is the published RIB "
             "key of the 21-character number; each through a kernel-checked layout obligation on the regenerated "
             "tables (algorithm class, field positions, check-field position, structure classes). The constants of "
             "the hand-written algorithm models are tied to the live objects by `live_probes_reproduced`: ~6,300 "
             "recorded compute/validate calls (unit vectors over every position x character, seeded random, "
             "ill-formed) replayed by the kernel on every run - correspondence, not a theorem about all inputs. "
             "tools/natref.py is a second independent reading of the rules used by the failing-input search. At the "
             "IBAN level (`new_national_eq`, `iban_accept_iff`, `live_<country>_iban` for all 22 countries): IBAN(text, validate_bban=True) "
             "succeeds exactly when the text is valid without national validation and its BBAN satisfies the "
             "country's rule; `national_error_sound`: an error raised with national validation is the error "
             "without it or names a rule that really fails.",
        design="7 (C06)",
        technique="Lean 4 proof (dispatch, field tiling, numerify / weighted-sum / Luhn / RIB / CIN value lemmas by "
                  "induction) + decide +kernel instance obligations on regenerated registration/position data and "
                  "recorded algorithm behaviour + differential check against an independent reference"),
    "C02": dict(
        text="Lean 4 theorems for every country of a well-formed table and every BBAN fitting its structure "
             "string (unbounded): from_bban returns country + fmt02(98 - numeric(bban+country)*100 mod 97) + bban "
             "and it is accepted (`from_bban`); the digits lie in 02..98 (`range`); among all ASCII digit pairs "
             "exactly the computed one is accepted (`unique`); 00/01/99 never are (`no_alias`). Instance facts on "
             "the regenerated table by kernel evaluation; model tied to the code by correspondence over all 100 "
             "pairs for BBANs of every country.",
        design="7 (C02)",
        technique="Lean 4 proof (modular arithmetic with omega on the numerify model) + regenerated table "
                  "obligations + differential correspondence"),
    "C04": dict(
        text="Lean 4 theorem `accept_iff`: for EVERY text and both compliance modes the validated BIC "
             "constructor (and validate(), is_valid) accepts exactly the ISO 9362 predicate of SV.Spec with the "
             "country code in the given ISO 3166 list; instance obligation: the two compiled patterns of the live "
             "bic.py are the expected ones (kernel evaluation); pycountry's code list is regenerated. "
             "Correspondence: every position x wide alphabet, lengths 0..14, all 676 country codes, both modes.",
        design="7 (C04)",
        technique="Lean 4 proof (full-match of the pattern sub-language unfolded over 8/11 symbolic characters) "
                  "+ regenerated pattern/country data + differential correspondence"),
    "C05": dict(
        text="Lean 4 theorems for every text: IBAN validation without national validation and BIC validation in "
             "both modes never end in a non-library exception (the model has explicit crash outcomes at every "
             "partial primitive), is_valid always returns a bool, constructor success <-> is_valid, and every "
             "raised error class implies its defect predicate (unknown country / wrong length / structure / "
             "mod-97) on the cleaned text. With validate_bban=True (C05National): for every text and every bank "
             "registry, IBAN(text, validate_bban=True) never ends in a non-library exception - generic theorem "
             "under two hypotheses (every registered algorithm reads only fields whose published classes it can "
             "digest: natSafeB, decidable; every German method returns a verdict on ten digits: DETotal), both "
             "discharged for the regenerated tables (kernel evaluation; the 39 method theorems of C07). Error "
             "soundness of InvalidBBANChecksum / InvalidAccountCode is C06/C07.",
        design="7 (C05)",
        technique="Lean 4 proof (decision-tree characterisation of the pipeline, error soundness by case "
                  "analysis) + regenerated tables + differential correspondence on a malformed/Unicode stream"),
    "C11": dict(
        text="Lean 4 theorems: country code + check digits + BBAN = compact form for every compact text of "
             "length >= 4; every component accessor equals the BBAN slice at the published position or is empty "
             "(for every well-formed table); published fields are pairwise disjoint and in bounds (table_wf, "
             "kernel-evaluated on the regenerated table); from_bban(country, bban) of an accepted IBAN returns "
             "it (via C02 uniqueness); BIC parts concatenate to the compact form, branch empty iff 8 long.",
        design="7 (C11)",
        technique="Lean 4 proof (list slicing identities, C02 uniqueness) + regenerated position table "
                  "obligations + differential correspondence on all countries"),
    "C01": dict(
        text="Lean 4 theorem `accept_iff`: for EVERY text (list of code points), every Unicode table and every "
             "country table satisfying decidable well-formedness facts, the validated constructor / validate() / "
             "is_valid accept exactly when the cleaned text satisfies the ISO 13616 predicate written "
             "independently in SV.Spec (known country, two check digits, BBAN of the country's length fitting its "
             "structure string position by position, mod-97 remainder 1, check digits in 02..98); accepted compact "
             "forms are [A-Z0-9] and at most 34 long. The well-formedness facts are re-proved by kernel evaluation "
             "on the country table, compiled patterns and Unicode tables regenerated from the live tree on every "
             "run; the hand-written pipeline model is tied to the code by a differential correspondence check.",
        design="7 (C01)",
        technique="Lean 4 proof (regex sub-language correctness, numerify arithmetic, pipeline case analysis) + "
                  "decide +kernel instance obligations on regenerated tables + differential correspondence"),
    "C10": dict(
        text="Machine-checked Lean 4 theorems about the model's `clean` for every text and every Unicode table "
             "satisfying decidable facts that the kernel re-checks on the tables regenerated from the running "
             "interpreter: whitespace insertion and ASCII case flips never change the compact form, the compact "
             "form has no whitespace / lower case and is idempotent, formatted forms are the stated groupings and "
             "parse back to an equal object. Tied to the code by the regenerated Unicode tables and by a "
             "correspondence stream (decorated variants through the real constructors and the Lean driver).",
        design="7 (C10)",
        technique="Lean 4 proof (induction over code-point lists) + regenerated Unicode tables checked by "
                  "decide +kernel + differential correspondence model/implementation"),
}

PENDING = "check under construction in this round; not claimed until its theorems are proved (DESIGN.md section 11)"


def main():
    props = [json.loads(l) for l in open(os.path.join(ROOT, "properties.jsonl"))]
    checks, na = [], []
    for p in props:
        pid = p["id"]
        if pid in CLAIMS:
            c = CLAIMS[pid]
            checks.append({
                "property_id": pid,
                "quick_cmd": f"./check {pid} --tier quick",
                "thorough_cmd": f"./check {pid} --tier thorough",
                "evidence_file": f"evidence/{pid}.json",
                "replay_cmd_template": "./check replay {path}",
                "engine": "lean4",
                "level_claimed": {"category": "proof", "text": c["text"],
                                  "design_ref": "DESIGN.md section " + c["design"]},
                "level_note": c.get("note", NOTE),
                "technique": c["technique"],
            })
        else:
            na.append({"property_id": pid, "reason": PENDING})
    m = {
        "version": 1,
        "setup_cmd": "./check setup",
        "hooks": {
            "guard": "MDOMKE_SCHWIFTY_VERIF",
            "enable": "no source hooks are needed: the checks import /repo's working tree directly (editable "
                      "install is a path entry); scheduling uses sys.settrace, effect extraction uses proxies "
                      "and the AST",
            "baseline_off_cmd": "cd /repo && /venv/bin/python -m pytest -ra -q -p no:cacheprovider "
                                "--timeout=900 --continue-on-collection-errors",
            "source_commits": [],
            "add_only": True,
        },
        "engines": [{"name": "lean4", "path": "lean",
                     "serves_properties": sorted(CLAIMS),
                     "kind_free_text": "Lean 4 model + theorems (lean/SV), tables regenerated by tools/gen.py, "
                                       "line-protocol driver (lean/Driver.lean) for the correspondence check"}],
        "checks": checks,
        "not_applicable": na,
        "notes": "All checks: ./check <id>; see DESIGN.md. known_findings.txt lists repaired defects (fixed:).",
    }
    json.dump(m, open(os.path.join(ROOT, "MANIFEST.json"), "w"), indent=1)


if __name__ == "__main__":
    main()
