#!/usr/bin/env python3
"""Writes lean/SV/Props/C07IbanAll.lean (committed; not regenerated at run time): for every implemented
Bundesbank method the IBAN-level corollary of its method theorem — a German text that is valid without
national validation and whose bank's first registry entry names the method is accepted with national
validation exactly when the published rule holds for its ten account digits."""
import os
import re

ROOT = os.path.dirname(os.path.dirname(os.path.abspath(__file__)))
P = os.path.join(ROOT, "lean", "SV", "Props")
src = open(os.path.join(P, "C07Plain.lean"), encoding="utf-8").read() + "\n" + \
    open(os.path.join(P, "C07Special.lean"), encoding="utf-8").read()
pat = re.compile(r"^theorem de(\d\d) \(U : Unicode\) \(hU : U\.WF\).*?deAccepts \(Gen\.de_DE_\1\.validateM U "
                 r"\[acct d1 d2 d3 d4 d5 d6 d7 d8 d9 d10\] sc\)\.2 =\s*(.*?)\s*:= by", re.S | re.M)
out = ['''/-
  GENERATED ONCE by tools/mk_c07_iban.py from the statements of the method theorems (committed; not
  regenerated at run time).  C07 at the IBAN level, per method: a German text that is valid without
  national validation and whose bank's FIRST registry entry names method `xx` is accepted by
  `IBAN(text, validate_bban=True)` exactly when the published rule of method `xx` holds for the ten
  account digits `d1 … d10` at positions 12 … 21 of the compact IBAN — for every registry.
-/
import SV.Props.C07IbanLevel
import SV.Props.C07Plain
import SV.Props.C07Special
namespace SV.Props.C07
open SV Spec
''']
methods = []
for m in pat.finditer(src):
    xx, rhs = m.group(1), " ".join(m.group(2).split())
    methods.append(xx)
    out.append(f'''
theorem live_german_iban_{xx}' (R : Registry) (s : Str)
    (hv : isoValid Gen.table (clean Gen.unicode s) = true)
    (hcc : (clean Gen.unicode s).take 2 = C06.bytes "DE")
    {{e : Country}} (hl : Gen.table.lookup (C06.bytes "DE") = some e)
    {{x : BankEntry}} {{t : List BankEntry}}
    (hb : R.byBankCode (C06.bytes "DE") (lookupKey e ((clean Gen.unicode s).drop 4)) = some (x :: t))
    (hname : x.checksumAlgo = some (C06.bytes "{xx}")) :
    ∃ d1 d2 d3 d4 d5 d6 d7 d8 d9 d10,
      slice ((clean Gen.unicode s).drop 4) 8 18 = acct d1 d2 d3 d4 d5 d6 d7 d8 d9 d10 ∧
      (IBAN.new (Gen.ctx R) s false true).isOk =
        ({rhs}) := by
  have hk : Gen.algoTable.get (C06.bytes "DE" ++ [colon] ++ C06.bytes "{xx}") =
      some ⟨C06.bytes "DE:{xx}", .de Gen.de_DE_{xx}, [.accountCode]⟩ := by rfl
  obtain ⟨d1, d2, d3, d4, d5, d6, d7, d8, d9, d10, g1, g2, g3, g4, g5, g6, g7, g8, g9, g10, hs, hok⟩ :=
    live_german_iban R s hv hcc hl hb hname hk rfl rfl
  refine ⟨d1, d2, d3, d4, d5, d6, d7, d8, d9, d10, hs, ?_⟩
  rw [hok]
  exact (de{xx} Gen.unicode C10.unicode_wf d1 d2 d3 d4 d5 d6 d7 d8 d9 d10 g1 g2 g3 g4 g5 g6 g7 g8 g9 g10 ⟨0⟩).2
''')
out.append('''
/-- Method 91: four variants, the account number is valid if one of them accepts. -/
theorem live_german_iban_91' (R : Registry) (s : Str)
    (hv : isoValid Gen.table (clean Gen.unicode s) = true)
    (hcc : (clean Gen.unicode s).take 2 = C06.bytes "DE")
    {e : Country} (hl : Gen.table.lookup (C06.bytes "DE") = some e)
    {x : BankEntry} {t : List BankEntry}
    (hb : R.byBankCode (C06.bytes "DE") (lookupKey e ((clean Gen.unicode s).drop 4)) = some (x :: t))
    (hname : x.checksumAlgo = some (C06.bytes "91")) :
    ∃ d1 d2 d3 d4 d5 d6 d7 d8 d9 d10,
      slice ((clean Gen.unicode s).drop 4) 8 18 = acct d1 d2 d3 d4 d5 d6 d7 d8 d9 d10 ∧
      (IBAN.new (Gen.ctx R) s false true).isOk =
        (rule06 (dot [2, 3, 4, 5, 6, 7] [d6, d5, d4, d3, d2, d1]) d7 ||
         rule06 (dot [7, 6, 5, 4, 3, 2] [d6, d5, d4, d3, d2, d1]) d7 ||
         rule06 (dot [2, 3, 4, 0, 5, 6, 7, 8, 9, 10] [d10, d9, d8, d7, d6, d5, d4, d3, d2, d1]) d7 ||
         rule06 (dot [2, 4, 8, 5, 10, 9] [d6, d5, d4, d3, d2, d1]) d7) := by
  have hk : Gen.algoTable.get (C06.bytes "DE" ++ [colon] ++ C06.bytes "91") =
      some ⟨C06.bytes "DE:91", .de Gen.de_DE_91, [.accountCode]⟩ := by rfl
  obtain ⟨d1, d2, d3, d4, d5, d6, d7, d8, d9, d10, g1, g2, g3, g4, g5, g6, g7, g8, g9, g10, hs, hok⟩ :=
    live_german_iban R s hv hcc hl hb hname hk rfl rfl
  refine ⟨d1, d2, d3, d4, d5, d6, d7, d8, d9, d10, hs, ?_⟩
  rw [hok, de91 Gen.unicode C10.unicode_wf d1 d2 d3 d4 d5 d6 d7 d8 d9 d10 g1 g2 g3 g4 g5 g6 g7 g8 g9 g10 ⟨0⟩]
  rfl

/-- Method 09 has no check digit: every account number is accepted. -/
theorem live_german_iban_09' (R : Registry) (s : Str)
    (hv : isoValid Gen.table (clean Gen.unicode s) = true)
    (hcc : (clean Gen.unicode s).take 2 = C06.bytes "DE")
    {e : Country} (hl : Gen.table.lookup (C06.bytes "DE") = some e)
    {x : BankEntry} {t : List BankEntry}
    (hb : R.byBankCode (C06.bytes "DE") (lookupKey e ((clean Gen.unicode s).drop 4)) = some (x :: t))
    (hname : x.checksumAlgo = some (C06.bytes "09")) :
    (IBAN.new (Gen.ctx R) s false true).isOk = true := by
  have hk : Gen.algoTable.get (C06.bytes "DE" ++ [colon] ++ C06.bytes "09") =
      some ⟨C06.bytes "DE:09", .de Gen.de_DE_09, [.accountCode]⟩ := by rfl
  obtain ⟨d1, d2, d3, d4, d5, d6, d7, d8, d9, d10, _, _, _, _, _, _, _, _, _, _, _, hok⟩ :=
    live_german_iban R s hv hcc hl hb hname hk rfl rfl
  rw [hok, de09 Gen.unicode _ ⟨0⟩]
  rfl

end SV.Props.C07
''')
open(os.path.join(P, "C07IbanAll.lean"), "w", encoding="utf-8").write("".join(out))
print(len(methods), methods)
