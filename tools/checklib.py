"""Verdict logic shared by all checks: translator, Lean build + axiom audit, correspondence,
failing-input search bookkeeping, known findings, evidence."""
from __future__ import annotations

import collections
import fcntl
import json
import os
import re
import subprocess
import sys
import time

HERE = os.path.dirname(os.path.abspath(__file__))
ROOT = os.path.dirname(HERE)
LEAN = os.path.join(ROOT, "lean")
EVID = os.path.join(ROOT, "evidence")
REPLAYS = os.path.join(EVID, "replays")
PY = "/venv/bin/python"
ALLOWED_AXIOMS = {"propext", "Classical.choice", "Quot.sound"}
FORBIDDEN = re.compile(r"\bsorry\b|\badmit\b|^\s*axiom\s|native_decide|bv_decide|implemented_by|"
                       r"\bunsafe\s|maxHeartbeats\s+0\b", re.M)

TRUSTED_BASE = [
    "Lean 4.33.0 kernel (thorough tier: re-checked with leanchecker)",
    "axioms: at most propext, Classical.choice, Quot.sound (audited with #print axioms on every run); "
    "no sorry/admit/own axiom/native_decide/bv_decide; `decide +kernel` is kernel evaluation",
    "tools/gen.py: writes into SV.Gen what the live library holds (tables, class attributes, "
    "compiled patterns, Unicode tables of the running interpreter)",
    "correspondence check (differential testing): the hand-written model SV.Model behaves like "
    "the implementation beyond the inputs that were run",
    "SV.Spec: the specification says what the standards / the property text say",
    "modelled, not verified: CPython re on the sub-language, str.upper, \\d, \\s, int, slicing, "
    "json, pathlib, pycountry, random/rstr, copy/pickle, the GIL and thread scheduler",
]


class Lock:
    def __enter__(self):
        os.makedirs(LEAN, exist_ok=True)
        self.f = open(os.path.join(LEAN, ".verif.lock"), "w")
        fcntl.flock(self.f, fcntl.LOCK_EX)
        return self

    def __exit__(self, *a):
        fcntl.flock(self.f, fcntl.LOCK_UN)
        self.f.close()


def sh(cmd, cwd=None, timeout=3600, env=None):
    p = subprocess.run(cmd, cwd=cwd, capture_output=True, text=True, timeout=timeout, env=env)
    return p.returncode, p.stdout + p.stderr


def run_gen():
    """Regenerate SV.Gen from the live tree. -> (problems, file hashes)"""
    env = dict(os.environ)
    try:
        rc, out = sh([PY, os.path.join(HERE, "gen.py")], env=env, timeout=600)
    except subprocess.TimeoutExpired:
        rc, out = 1, "the translator did not finish within 600 s (an unbounded value in the tree under test?)"
    man = os.path.join(LEAN, "SV", "Gen", "manifest.json")
    problems, files = [], {}
    if rc != 0 or not os.path.exists(man):
        problems.append("translator failed: " + out[-1500:])
    else:
        m = json.load(open(man))
        problems, files = list(m.get("problems", [])), m.get("files", {})
        GEN_NOTES[:] = list(m.get("notes", []))
    return problems, files


GEN_NOTES: list = []


def strip_comments(src: str) -> str:
    src = re.sub(r"/-.*?-/", "", src, flags=re.S)
    return re.sub(r"--.*", "", src)


def forbidden_tokens() -> list[str]:
    hits = []
    for dp, _, fns in os.walk(os.path.join(LEAN, "SV")):
        for fn in fns:
            if fn.endswith(".lean"):
                p = os.path.join(dp, fn)
                for m in FORBIDDEN.finditer(strip_comments(open(p, encoding="utf-8").read())):
                    hits.append(f"{os.path.relpath(p, LEAN)}: {m.group(0).strip()}")
    return hits


THEOREM = re.compile(r"^(?:@\[[^\]]*\]\s*)?(?:protected\s+|private\s+)?theorem\s+([^\s:({\[]+)", re.M)


def theorems_of(pid: str):
    """Theorem names (fully qualified) declared in Props/<pid>*.lean, with file and line."""
    import glob
    out = []
    main = os.path.join(LEAN, "SV", "Props", pid + ".lean")
    files = sorted(glob.glob(os.path.join(LEAN, "SV", "Props", pid + "*.lean")))
    for path in files:
        src = open(path, encoding="utf-8").read()
        ns = re.search(r"^namespace\s+(\S+)", src, re.M)
        prefix = (ns.group(1) + ".") if ns else ""
        for m in THEOREM.finditer(src):
            line = src.count("\n", 0, m.start()) + 1
            out.append((prefix + m.group(1), line, path))
    return out, main


def prop_modules(pid: str) -> list[str]:
    thms3, _ = theorems_of(pid)
    return sorted({"SV.Props." + os.path.splitext(os.path.basename(f))[0] for _, _, f in thms3} | {f"SV.Props.{pid}"})


def build_and_audit(pid: str):
    """lake build Props/<pid> (+ driver); #print axioms for each theorem.
    -> dict(obligations, discharged, failed: {name: reason}, axioms: {name: [..]}, log)"""
    thms3, path = theorems_of(pid)
    thms = [(n, l) for n, l, _ in thms3]
    res = {"obligations": len(thms), "discharged": 0, "failed": {}, "axioms": {}, "log": "",
           "driver_ok": True}
    rc, out = sh(["lake", "build", "driver"], cwd=LEAN, timeout=3600)
    res["log"] += out[-3000:] if rc != 0 else ""
    if rc != 0:
        res["driver_ok"] = False
    # every file Props/<pid>*.lean is a module of this property
    mods = sorted({"SV.Props." + os.path.splitext(os.path.basename(f))[0] for _, _, f in thms3} |
                  {f"SV.Props.{pid}"})
    rc, out = sh(["lake", "build"] + mods, cwd=LEAN, timeout=7200)
    if rc != 0:
        res["log"] += out[-6000:]
        # build the modules of the property one by one: the theorems of a module that still builds are
        # audited as usual, those of a module that does not are marked with the reason
        good = []
        for mod in mods:
            rc1, out1 = sh(["lake", "build", mod], cwd=LEAN, timeout=7200)
            if rc1 == 0:
                good.append(mod)
                continue
            mpath = os.path.join(LEAN, *mod.split(".")) + ".lean"
            mine = [(n, l) for n, l, f in thms3 if f == mpath]
            rel = os.path.relpath(mpath, LEAN)
            errs = [int(m.group(1)) for m in re.finditer(r"error: " + re.escape(rel) + r":(\d+):\d+", out1)]
            broken_imports = sorted(set(re.findall(r"✖ \[\d+/\d+\] Building (\S+)", out1)) - {mod})
            for name, line in mine:
                nxt = min([l for _, l in mine if l > line] + [10 ** 9])
                if any(line <= e < nxt for e in errs):
                    res["failed"][name] = "proof does not check"
                elif errs:
                    res["failed"][name] = "file does not build; theorem not audited"
                else:
                    res["failed"][name] = "a module this file imports does not build" + \
                        (": " + ", ".join(broken_imports[:4]) if broken_imports else "")
        thms = [(n, l) for n, l, f in thms3 if "SV.Props." + os.path.splitext(os.path.basename(f))[0] in good]
        mods = good
        if not thms:
            return res
    audit_dir = os.path.join(LEAN, "SV", "Audit")
    os.makedirs(audit_dir, exist_ok=True)
    apath = os.path.join(audit_dir, pid + ".lean")
    with open(apath, "w") as f:
        f.write("".join(f"import {m}\n" for m in mods) + "".join(f"#print axioms {n}\n" for n, _ in thms))
    rc, out = sh(["lake", "env", "lean", apath], cwd=LEAN, timeout=1800)
    if rc != 0:
        res["log"] += out[-3000:]
    for name, _ in thms:
        m = re.search(r"'" + re.escape(name) + r"' (depends on axioms: \[([^\]]*)\]|does not depend on any axioms)",
                      out.replace("\n", " "))
        if not m:
            res["failed"][name] = "no axiom report"
            continue
        axs = [a.strip() for a in (m.group(2) or "").split(",") if a.strip()]
        res["axioms"][name] = axs
        bad = [a for a in axs if a not in ALLOWED_AXIOMS]
        if bad:
            res["failed"][name] = "depends on " + ", ".join(bad)
        else:
            res["discharged"] += 1
    return res


def leanchecker(pid: str):
    thms3, _ = theorems_of(pid)
    mods = sorted({"SV.Props." + os.path.splitext(os.path.basename(f))[0] for _, _, f in thms3} |
                  {f"SV.Props.{pid}"})
    rc, out = sh(["lake", "env", "leanchecker"] + mods, cwd=LEAN, timeout=7200)
    return rc == 0, out[-2000:]


# ------------------------------------------------------------------ known findings
def known_findings(pid: str):
    path = os.path.join(ROOT, "known_findings.txt")
    out = []
    if os.path.exists(path):
        for line in open(path, encoding="utf-8"):
            line = line.strip()
            if line.startswith("known:") and f"property={pid} " in line:
                m = re.search(r"match=(\{.*?\})\s", line)
                desc = line.split("::", 1)[1].strip() if "::" in line else line
                out.append({"match": json.loads(m.group(1)) if m else {}, "desc": desc})
    return out


def is_known(v: dict, known: list) -> dict | None:
    for k in known:
        if all(v.get(a) == b for a, b in k["match"].items()):
            return k
    return None


# ------------------------------------------------------------------ a run
class Run:
    def __init__(self, pid: str, tier: str, seed: int):
        self.pid, self.tier, self.seed = pid, tier, seed
        self.t0 = time.time()
        self.evaluations = 0
        self.distinct = set()
        self.hist = collections.Counter()
        self.samples = []
        self.disagreements = []   # model vs implementation
        self.violations = []      # implementation vs Spec (or a direct property check)
        self.streams = {}
        self.notes = []
        self.exhaustive = False
        self.traces = 0

    def scale(self, quick: int, thorough: int) -> int:
        return thorough if self.tier == "thorough" else quick

    # -- correspondence: model (Impl) vs implementation
    def correspond(self, name: str, ops, nontrivial=None):
        from corr import compare
        from realops import unhx
        if not ops:
            return [], []
        # a text is a text whatever object carries it: every 7th constructor / validation / accessor
        # operation is repeated with the text handed over as an unvalidated IBAN / BIC, a plain str
        # subclass, or an IBAN / BIC object that went through default validation (if it passes)
        from realops import CARRIED
        n_orig = len(ops)
        origin = {}
        if not any(f[0].startswith("reg.") for f in ops):
            extra = []
            k = 0
            for j, f in enumerate(ops):
                if f[0] in CARRIED:
                    k += 1
                    if k % 7 == 0:
                        origin[n_orig + len(extra)] = j
                        extra.append([f[0] + "@" + ("iban", "bic", "sub", "viban", "vbic")[(k // 7) % 5]] + list(f[1:]))
            ops = list(ops) + extra
        reals, model, diff = compare(ops)
        for i, j in origin.items():
            if reals[i] != reals[j]:
                base, carrier = ops[i][0].split("@")
                self.violation(f"{base} with the text handed over as a {carrier} object", [unhx(ops[i][1])],
                               reals[i], reals[j],
                               "the same characters as a plain str give the expected answer; stream " + name,
                               kind="op", op=ops[i], expected_line=reals[j])
        diff = [i for i in diff if i < n_orig or reals[i] != reals[origin[i]]]
        n_ops = 0
        for f, a in zip(ops, reals):
            if f[0].startswith("reg."):
                continue
            n_ops += 1
            key = "\t".join(f)
            tag = a.split(" ")[0] + (" " + a.split(" ")[1] if a.startswith(("err", "crash")) else "")
            self.hist[f[0] + " -> " + tag] += 1
            if nontrivial is None or nontrivial(f, a):
                self.distinct.add(key)
        self.evaluations += n_ops
        self.traces += n_ops
        st = self.streams.setdefault(name, {"ops": 0, "disagreements": 0})
        st["ops"] += n_ops
        st["disagreements"] += len(diff)
        for i in diff[:50]:
            self.disagreements.append({"stream": name, "op": ops[i], "implementation": reals[i],
                                       "model": model[i],
                                       "readable": [readable(x) for x in ops[i][1:]]})
        if len(self.samples) < 12:
            for f, a in list(zip(ops, reals))[:: max(1, len(ops) // 3)][:3]:
                if not f[0].startswith("reg."):
                    self.samples.append({"stream": name, "op": f[0], "args": [readable(x) for x in f[1:]],
                                         "implementation": a})
        return reals[:n_orig], model[:n_orig]

    def violation(self, call: str, args: list, observed: str, expected: str, how: str, **extra):
        v = {"property": self.pid, "kind": extra.pop("kind", "input"), "call": call, "args": args,
             "observed": observed, "expected_by_spec": expected, "how_found": how, "seed": self.seed}
        v.update(extra)
        self.violations.append(v)

    def count(self, n: int = 1, key=None, tag=None):
        self.evaluations += n
        if key is not None:
            self.distinct.add(key)
        if tag is not None:
            self.hist[tag] += n


def readable(x: str) -> str:
    if x in ("T", "F", "-", "null", "absent") or "=" in x:
        return x
    try:
        return "".join(chr(int(h, 16)) for h in x.split(".")).encode("unicode_escape").decode()
    except ValueError:
        return x


ALL_PIDS = {"C%02d" % i for i in range(1, 19)}
IBAN_PIDS = ALL_PIDS - {"C04", "C16", "C18"}


def problem_concerns(problem: str) -> set:
    """Which properties rest on the part of the tree a translator problem is about.  (A problem in the
    reading of a German method class says nothing about IBAN structure checks, and so on; a problem that
    cannot be attributed concerns every property.)"""
    p = problem
    if p.startswith(("DE hook", "DE class")) or re.match(r"algorithm DE:", p) or p.startswith("probe: DE"):
        return {"C05", "C07", "C14", "C15"}
    if p.startswith("algorithm ") or p.startswith("probe:"):
        return {"C05", "C06", "C08", "C09", "C13", "C14", "C15"}
    if p.startswith("unicode:"):
        return ALL_PIDS - {"C18"}
    if p.startswith("pycountry"):
        return {"C04", "C05", "C17"}
    if p.startswith("registry value"):
        return {"C18"}
    if p.startswith("bank entry"):
        return {"C07", "C12", "C13", "C17", "C18"}
    if "__new__(*__getnewargs__())" in p:
        return {"C16"}
    if p.startswith("effect probe failed"):
        return {"C14", "C15"}
    if p.startswith(("unknown component", "Component order", "country entry")) or \
            re.match(r"[A-Z]{2}: (position|pattern|bban_spec)", p) or "not a natural number" in p:
        return IBAN_PIDS | {"C18"}
    return ALL_PIDS


def finish(run: Run, audit: dict, gen_problems: list, gen_files: dict, rule: str,
           level_note: str, extra_cov: dict | None = None) -> int:
    """Write evidence, print the verdict lines, return the exit code."""
    os.makedirs(REPLAYS, exist_ok=True)
    pid = run.pid
    other_problems = [p for p in gen_problems if pid not in problem_concerns(p)]
    gen_problems = [p for p in gen_problems if pid in problem_concerns(p)]
    if other_problems:
        run.notes.append("translator problems about parts of the tree this property does not rest on: "
                         + "; ".join(sorted(set(other_problems))[:6]))
    known = known_findings(pid)
    broken = []
    for name, why in audit["failed"].items():
        broken.append({"theorem": name, "reason": why})
    if gen_problems:
        broken.append({"translator": gen_problems})
    if not audit.get("driver_ok", True):
        broken.append({"driver": "the model/driver no longer builds on the regenerated tables"})
    hits = forbidden_tokens()
    if hits:
        broken.append({"forbidden_tokens": hits})
    corr_broken = bool(run.disagreements)
    lines, exit_code, n_new = [], 0, 0
    seen_known = set()
    for v in run.violations:
        k = is_known(v, known)
        if k:
            if k["desc"] not in seen_known:
                seen_known.add(k["desc"])
                lines.append(f"KNOWN-FINDING: property={pid} {k['desc']}")
            continue
        n_new += 1
        if n_new <= 5:
            path = os.path.join(REPLAYS, f"{pid}-{n_new}.json")
            json.dump(v, open(path, "w"), indent=1, ensure_ascii=True)
            lines.append(f"VIOLATION property={pid} replay={os.path.relpath(path, ROOT)}")
        exit_code = 1
    if n_new == 0 and (broken or corr_broken):
        path = os.path.join(REPLAYS, f"{pid}-unproved.json")
        json.dump({"property": pid, "kind": "tie-broken",
                   "no_longer_checks": broken,
                   "correspondence_disagreements": run.disagreements[:20],
                   "build_log_tail": audit.get("log", "")[-4000:],
                   "search": "implementation vs Spec on all streams of this check found no failing input",
                   "seed": run.seed}, open(path, "w"), indent=1, ensure_ascii=True)
        lines.append(f"VIOLATION property={pid} replay={os.path.relpath(path, ROOT)} no-failing-input-found")
        exit_code = 1
    cov = {
        "obligations": audit["obligations"],
        "discharged": audit["discharged"],
        "checker_cmd": "cd lean && lake build " + " ".join(prop_modules(pid)) + f" && lake env lean SV/Audit/{pid}.lean"
                       + (" && lake env leanchecker SV.Props." + pid if run.tier == "thorough" else ""),
        "trusted_base": TRUSTED_BASE,
        "evaluations": run.evaluations,
        "distinct_nontrivial": len(run.distinct),
        "rule": rule,
        "samples": run.samples[:12] or [{"note": "no dynamic cases in this check"}],
        "traces_validated_against_impl": run.traces,
        "exhaustive": run.exhaustive,
        "theorems": {n: {"axioms": a} for n, a in audit["axioms"].items()},
        "unproved": audit["failed"],
        "correspondence_streams": run.streams,
        "correspondence_disagreements": len(run.disagreements),
        "input_distribution": dict(run.hist.most_common(60)),
        "gen_hashes": gen_files,
        "gen_problems": gen_problems,
        "notes": run.notes,
    }
    if extra_cov:
        cov.update(extra_cov)
    ev = {"property_id": pid, "tier": run.tier, "seed": run.seed, "level": "proof", "coverage": cov,
          "assumptions": [level_note], "wall_s": round(time.time() - run.t0, 2),
          "violations": n_new}
    os.makedirs(EVID, exist_ok=True)
    json.dump(ev, open(os.path.join(EVID, pid + ".json"), "w"), indent=1, ensure_ascii=True)
    for l in lines:
        print(l)
    print(f"{pid} [{run.tier}] theorems {audit['discharged']}/{audit['obligations']} discharged; "
          f"{run.evaluations} evaluations, {len(run.disagreements)} model/implementation disagreements, "
          f"{n_new} violations; {ev['wall_s']} s")
    sys.stdout.flush()
    return exit_code
